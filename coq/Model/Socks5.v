(* Model of socks5_client.rs: message writers, the negotiation of connect_inner as a function of
   the server's byte stream, read_reply, UDP request header wrap/unwrap. *)
From Coq Require Import List NArith Bool.
From TT Require Import Lib.Res Lib.BytesL Lib.Utf8 Generated.Consts.
Import ListNotations.
Open Scope N_scope.

Inductive s_auth :=
| ANone
| AUserPass (u p : list N)
| AExt (vals : list (N * list N)).      (* (type code 1..5, value bytes) *)

Inductive s_dest := DIp (b : list N) | DDomain (name : list N).   (* 4 or 16 address bytes *)

Inductive s_outcome := OTcp | OFailure (code : N) | OIo | OProtocol | OAuth.

Inductive emitted := EmSel (m : list N) | EmAuth (m : list N) | EmReq (m : list N).

Definition em_bytes (e : emitted) : list N :=
  match e with EmSel m | EmAuth m | EmReq m => m end.

Definition method_of (a : s_auth) : N :=
  match a with
  | ANone => SOCKS_AUTHENTICATION_CODE_NO_AUTH
  | AUserPass _ _ => SOCKS_AUTHENTICATION_CODE_USERNAME_PASSWORD
  | AExt _ => SOCKS_AUTHENTICATION_CODE_EXTENDED_AUTH
  end.

(* write_selection_message(&[auth method or NoAuth, NoAuth]) *)
Definition selection_message (a : s_auth) : list N :=
  [SOCKS_PROTOCOL_VERSION; 2; method_of a; SOCKS_AUTHENTICATION_CODE_NO_AUTH].

Definition u8 (n : N) : N := n mod 256.

(* the extended values that carry a string (DOMAIN, USER_AGENT, PROXY_AUTH): documented length (0..MAX] *)
Definition ext_is_string (t : N) : bool := (t =? 1) || (t =? 3) || (t =? 4).

(* write_extended_authentication_value: None = Err(Protocol) *)
Fixpoint ext_values (vals : list (N * list N)) : option (list N) :=
  match vals with
  | [] => Some []
  | (t, v) :: rest =>
    if (SOCKS_EXT_EMPTY_REFUSED =? 1) && ext_is_string t && (lenN v =? 0) then None
    else if 65535 <? lenN v then None
    else match ext_values rest with
         | None => None
         | Some r => Some ([t] ++ to_be 2 (lenN v) ++ v ++ r)
         end
  end.

(* write_authentication_message: None = Err(Protocol), nothing is written *)
Definition auth_message (a : s_auth) : option (list N) :=
  match a with
  | ANone => None
  | AUserPass u p =>
    if (SOCKS_USERPASS_LENGTH_CHECKED =? 1) && ((255 <? lenN u) || (255 <? lenN p)) then None
    else if (SOCKS_USERPASS_EMPTY_REFUSED =? 1) && ((lenN u =? 0) || (lenN p =? 0)) then None
    else Some ([SOCKS_USERNAME_PASSWORD_AUTHENTICATION_VER; u8 (lenN u)] ++ u ++ [u8 (lenN p)] ++ p)
  | AExt vals =>
    match ext_values vals with
    | None => None
    | Some b =>
      Some ([SOCKS_USERNAME_PASSWORD_AUTHENTICATION_VER] ++ b
            ++ [SOCKS_EXTENDED_AUTHENTICATION_TERM_TYPE_CODE]
            ++ to_be 2 SOCKS_EXTENDED_AUTHENTICATION_TERM_VAL_LENGTH)
    end
  end.

(* write_request *)
Definition request_message (cmd : N) (d : s_dest) (port : N) : option (list N) :=
  let head := [SOCKS_PROTOCOL_VERSION; cmd; SOCKS_RESERVED] in
  match d with
  | DIp b =>
    Some (head ++ [if lenN b =? 4 then SOCKS_ADDRESS_TYPE_IP_V4 else SOCKS_ADDRESS_TYPE_IP_V6]
               ++ b ++ to_be 2 port)
  | DDomain name =>
    if 255 <? lenN name then None
    else Some (head ++ [SOCKS_ADDRESS_TYPE_DOMAIN_NAME; lenN name] ++ name ++ to_be 2 port)
  end.

(* reading from the server's byte stream: running out of bytes is Error::Io (UnexpectedEof) *)
Definition take_bytes (n : N) (s : list N) : option (list N * list N) :=
  if lenN s <? n then None else Some (takeN n s, dropN n s).

Definition read_u8 (s : list N) : option (N * list N) :=
  match s with b :: r => Some (b, r) | [] => None end.

(* read_reply: (outcome so far, reply code) *)
Definition read_reply (s : list N) : s_outcome :=
  match read_u8 s with
  | None => OIo
  | Some (ver, s1) =>
    if negb (ver =? SOCKS_PROTOCOL_VERSION) then OProtocol else
    match read_u8 s1 with
    | None => OIo
    | Some (code, s2) =>
      if 8 <? code then OProtocol else
      match read_u8 s2 with
      | None => OIo
      | Some (rsv, s3) =>
        if negb (rsv =? SOCKS_RESERVED) then OProtocol else
        match read_u8 s3 with
        | None => OIo
        | Some (atyp, s4) =>
          let after_addr :=
            if atyp =? SOCKS_ADDRESS_TYPE_IP_V4 then
              match take_bytes 4 s4 with Some (_, r) => Ok r | None => Reject end
            else if atyp =? SOCKS_ADDRESS_TYPE_IP_V6 then
              match take_bytes 16 s4 with Some (_, r) => Ok r | None => Reject end
            else if atyp =? SOCKS_ADDRESS_TYPE_DOMAIN_NAME then
              match read_u8 s4 with
              | None => Reject
              | Some (l, s5) =>
                match take_bytes l s5 with
                | None => Reject
                | Some (name, r) => if utf8_valid name then Ok r else Panic (* = Protocol *)
                end
              end
            else Panic in
          match after_addr with
          | Reject => OIo
          | Panic | Fuel => OProtocol
          | Ok r =>
            match take_bytes 2 r with
            | None => OIo
            | Some _ => if code =? 0 then OTcp else OFailure code
            end
          end
        end
      end
    end
  end.

(* bytes of the reply consumed before the outcome is known are irrelevant to the caller *)

(* the length of the reply at the head of [s] as RFC 1928 section 6 frames it (VER REP RSV ATYP BND.ADDR BND.PORT),
   and what follows it: after a successful CONNECT those following bytes are the first bytes of the
   tunnelled connection, which the forwarder relays to the VPN client *)
Definition reply_len (s : list N) : option N :=
  match s with
  | _ :: _ :: _ :: atyp :: r =>
    if atyp =? SOCKS_ADDRESS_TYPE_IP_V4 then Some 10
    else if atyp =? SOCKS_ADDRESS_TYPE_IP_V6 then Some 22
    else if atyp =? SOCKS_ADDRESS_TYPE_DOMAIN_NAME then match r with l :: _ => Some (7 + l) | [] => None end
    else None
  | _ => None
  end.

(* read_reply together with the stream it leaves behind: the same reads, keeping what follows
   BND.PORT when the reply is a success (theorem read_reply_full_outcome: same outcome as read_reply) *)
Definition read_reply_full (s : list N) : s_outcome * list N :=
  match s with
  | ver :: code :: rsv :: atyp :: s4 =>
    if negb (ver =? SOCKS_PROTOCOL_VERSION) then (OProtocol, []) else
    if 8 <? code then (OProtocol, []) else
    if negb (rsv =? SOCKS_RESERVED) then (OProtocol, []) else
    let after_addr :=
      if atyp =? SOCKS_ADDRESS_TYPE_IP_V4 then
        match take_bytes 4 s4 with Some (_, r) => Ok r | None => Reject end
      else if atyp =? SOCKS_ADDRESS_TYPE_IP_V6 then
        match take_bytes 16 s4 with Some (_, r) => Ok r | None => Reject end
      else if atyp =? SOCKS_ADDRESS_TYPE_DOMAIN_NAME then
        match s4 with
        | [] => Reject
        | l :: s5 =>
          match take_bytes l s5 with
          | None => Reject
          | Some (name, r) => if utf8_valid name then Ok r else Panic
          end
        end
      else Panic in
    match after_addr with
    | Reject => (OIo, [])
    | Panic | Fuel => (OProtocol, [])
    | Ok r =>
      match take_bytes 2 r with
      | None => (OIo, [])
      | Some (_, rest) => if code =? 0 then (OTcp, rest) else (OFailure code, [])
      end
    end
  | _ => (read_reply s, [])
  end.

Definition read_reply_rest (s : list N) : s_outcome * list N := read_reply_full s.

Definition after_auth (a : s_auth) (d : s_dest) (port : N) (s : list N) (em : list emitted)
  : list emitted * s_outcome :=
  match request_message 1 d port with
  | None => (em, OProtocol)
  | Some req => (em ++ [EmReq req], read_reply s)
  end.

(* connect_inner for a CONNECT request *)
Definition connect (a : s_auth) (d : s_dest) (port : N) (server : list N)
  : list emitted * s_outcome :=
  let em0 := [EmSel (selection_message a)] in
  match read_u8 server with
  | None => (em0, OIo)
  | Some (ver, s1) =>
    if negb (ver =? SOCKS_PROTOCOL_VERSION) then (em0, OProtocol) else
    match read_u8 s1 with
    | None => (em0, OIo)
    | Some (m, s2) =>
      if m =? SOCKS_AUTHENTICATION_CODE_NO_AUTH then after_auth a d port s2 em0
      else if (m =? SOCKS_AUTHENTICATION_CODE_USERNAME_PASSWORD)
              || (m =? SOCKS_AUTHENTICATION_CODE_EXTENDED_AUTH) then
        if (m =? method_of a) then
          match auth_message a with
          | None => (em0, OProtocol)
          | Some msg =>
            let em1 := em0 ++ [EmAuth msg] in
            match read_u8 s2 with
            | None => (em1, OIo)
            | Some (v, s3) =>
              if negb (v =? SOCKS_USERNAME_PASSWORD_AUTHENTICATION_VER) then (em1, OProtocol) else
              match read_u8 s3 with
              | None => (em1, OIo)
              | Some (status, s4) =>
                if negb (status =? SOCKS_AUTHENTICATION_STATUS_SUCCESS) then (em1, OAuth)
                else after_auth a d port s4 em1
              end
            end
          end
        else (em0, OAuth)            (* server selected a non-offered method *)
      else if m =? SOCKS_AUTHENTICATION_CODE_NO_ACCEPTABLE then (em0, OAuth)
      else (em0, OProtocol)
    end
  end.

(* the stream handed to the forwarder after a successful CONNECT: the server's bytes after the
   method selection, the authentication status when one was exchanged, and the reply *)
Definition connect_rest (a : s_auth) (d : s_dest) (port : N) (server : list N) : list N :=
  match connect a d port server with
  | (_, OTcp) =>
    match server with
    | _ :: m :: s2 =>
      let s := if m =? SOCKS_AUTHENTICATION_CODE_NO_AUTH then s2 else dropN 2 s2 in
      snd (read_reply_rest s)
    | _ => []
    end
  | _ => []
  end.

(* UdpAssociation::send_to *)
Definition udp_wrap (dest_ip : list N) (port : N) (data : list N) : list N :=
  [SOCKS_RESERVED; SOCKS_RESERVED; SOCKS_UDP_HEADER_FRAG;
   if lenN dest_ip =? 4 then SOCKS_ADDRESS_TYPE_IP_V4 else SOCKS_ADDRESS_TYPE_IP_V6]
  ++ dest_ip ++ to_be 2 port ++ data.

(* UdpAssociation::recv_from: (source ip bytes, port, payload) *)
Definition udp_unwrap (pkt : list N) : res (list N * N * list N) :=
  if lenN pkt <? 10 then Reject else
  match pkt with
  | r0 :: r1 :: frag :: atyp :: rest =>
    if negb ((r0 =? SOCKS_RESERVED) && (r1 =? SOCKS_RESERVED)) then Reject
    else if negb (frag =? SOCKS_UDP_HEADER_FRAG) then Reject
    else
      let alen := if atyp =? SOCKS_ADDRESS_TYPE_IP_V4 then Some 4
                  else if atyp =? SOCKS_ADDRESS_TYPE_IP_V6 then Some 16 else None in
      match alen with
      | None => Reject
      | Some n =>
        if lenN rest <? n then (if n =? 4 then Panic else Reject)   (* copy_to_slice / checked *)
        else
          let ip := takeN n rest in
          let r2 := dropN n rest in
          if lenN r2 <? 2 then Reject
          else Ok (ip, be (takeN 2 r2), dropN 2 r2)
      end
  | _ => Reject
  end.

(* socks5_forwarder::make_auth *)
From TT Require Import Lib.Base64.

Fixpoint split_colon (l : list N) : option (list N * list N) :=
  match l with
  | [] => None
  | c :: r => if c =? 58 then Some ([], r)
              else match split_colon r with
                   | Some (a, b) => Some (c :: a, b)
                   | None => None
                   end
  end.

Definition make_auth_basic (token : list N) : option (list N * list N) :=
  match b64_decode token with
  | None => None
  | Some cred => if utf8_valid cred then split_colon cred else None
  end.

(* socks5_forwarder::make_extended_auth: the values that go with a request: the TLS server name, the client's address, its
   User-Agent when it sent one with a value, and its Basic token or the mark of SNI credentials *)
Inductive auth_source := SrcSni | SrcBasic (token : list N).

Definition make_extended_auth (domain addr : list N) (agent : option (list N)) (src : auth_source)
  : list (N * list N) :=
  [(1, domain); (2, addr)]
  ++ match agent with
     | Some ua => if is_nil ua then [] else [(3, ua)]
     | None => []
     end
  ++ [match src with SrcSni => (5, []) | SrcBasic t => (4, t) end].

(* socks5_forwarder.rs: what the outcome of the dialogue becomes for the client of the endpoint:
   (status, X-Warning code) of the response to its CONNECT (see Model/TunnelGate.v for the table) *)
Definition socks_result (o : s_outcome) : N * N :=
  match o with
  | OTcp => (200, 0)
  | OFailure c => if (c =? 3) || (c =? 4) then (502, 301) else if c =? 6 then (502, 302) else (502, 300)
  | OIo | OProtocol => (502, 300)
  | OAuth => (407, 0)
  end.
