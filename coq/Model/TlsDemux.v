(* Model of tls_demultiplexer.rs (TlsDemux::new, select, select_tunnel_channel_protocol), of the
   TCP-side filter in core.rs and of Core::reload_tls_hosts_settings. Names are byte strings;
   a host's certificate identity is its index in main ++ reverse-proxy ++ ping ++ speedtest. *)
From Coq Require Import List NArith Bool.
From TT Require Import Lib.BytesL Lib.Utf8 Generated.DemuxFacts.
Import ListNotations.
Open Scope N_scope.

Inductive proto := H1 | H2 | H3.
Inductive channel := ChTunnel | ChPing | ChSpeed | ChRevProxy.

Definition proto_rank (p : proto) : N := match p with H1 => 1 | H2 => 2 | H3 => 3 end.
Definition proto_eqb (a b : proto) : bool := proto_rank a =? proto_rank b.

Record main_host := { mh_name : list N; mh_alts : list (list N) }.

Record config := {
  c_main : list main_host;
  c_rp : list (list N);
  c_ping : list (list N);
  c_speed : list (list N);
  c_h1 : bool; c_h2 : bool; c_h3 : bool;     (* listen_protocols.http1 / http2 / quic *)
  c_rp_enabled : bool                        (* settings.reverse_proxy.is_some() *)
}.

Record meta := { m_channel : channel; m_proto : proto; m_host : N; m_creds : option (list N) }.

Definition name_eqb (a b : list N) : bool := list_eqb N.eqb a b.

(* index of the first element equal to x *)
Fixpoint index_of (x : list N) (l : list (list N)) (base : N) : option N :=
  match l with
  | [] => None
  | y :: r => if name_eqb y x then Some base else index_of x r (base + 1)
  end.

Definition enabled (c : config) (p : proto) : bool :=
  match p with H1 => c_h1 c | H2 => c_h2 c | H3 => c_h3 c end.

(* Protocol::from_alpn on a byte string that is valid UTF-8 *)
Definition from_alpn (a : list N) : option proto :=
  if negb (utf8_valid a) then None
  else if name_eqb a [104; 116; 116; 112; 47; 49; 46; 49] then Some H1     (* "http/1.1" *)
  else if name_eqb a [104; 50] then Some H2                                 (* "h2" *)
  else if name_eqb a [104; 51] then Some H3                                 (* "h3" *)
  else None.

Fixpoint parse_alpn (alpn : list (list N)) : list proto :=
  match alpn with
  | [] => []
  | a :: r => match from_alpn a with Some p => p :: parse_alpn r | None => parse_alpn r end
  end.

Fixpoint max_proto (l : list proto) : option proto :=
  match l with
  | [] => None
  | p :: r => match max_proto r with
              | None => Some p
              | Some q => Some (if proto_rank q <? proto_rank p then p else q)
              end
  end.

(* select_tunnel_channel_protocol *)
Definition tunnel_proto (c : config) (parsed : list proto) (alpn : list (list N)) : option proto :=
  match max_proto (filter (enabled c) parsed) with
  | Some p => Some p
  | None => if c_h1 c && is_nil alpn then Some H1 else None
  end.

Fixpoint split_dot (s : list N) : option (list N * list N) :=
  match s with
  | [] => None
  | x :: r => if x =? 46 then Some ([], r)
              else match split_dot r with Some (a, b) => Some (x :: a, b) | None => None end
  end.

Definition main_names (c : config) : list (list N) := map mh_name (c_main c).
Definition rp_hosts (c : config) : list (list N) := if c_rp_enabled c then c_rp c else [].

(* allowed_sni_to_main_host: alternative SNI -> index of its main host *)
Fixpoint alt_lookup (sni : list N) (hosts : list main_host) (base : N) : option N :=
  match hosts with
  | [] => None
  | h :: r => if existsb (name_eqb sni) (mh_alts h) then Some base else alt_lookup sni r (base + 1)
  end.

Definition n_main (c : config) : N := lenN (c_main c).
Definition n_rp (c : config) : N := lenN (rp_hosts c).
Definition n_ping (c : config) : N := lenN (c_ping c).

Definition select (c : config) (alpn : list (list N)) (sni : list N) : option meta :=
  let parsed := parse_alpn alpn in
  if is_nil parsed && negb (is_nil alpn) then None
  else
    let tun host creds :=
        match tunnel_proto c parsed alpn with
        | Some p => Some {| m_channel := ChTunnel; m_proto := p; m_host := host; m_creds := creds |}
        | None => None
        end in
    match index_of sni (main_names c) 0 with
    | Some i => tun i None
    | None =>
      match index_of sni (rp_hosts c) (n_main c) with
      | Some i =>
        match max_proto (filter (fun p => match p with H2 => false | _ => true end) parsed) with
        | Some p => Some {| m_channel := ChRevProxy; m_proto := p; m_host := i; m_creds := None |}
        | None => if is_nil alpn
                  then Some {| m_channel := ChRevProxy; m_proto := H1; m_host := i; m_creds := None |}
                  else None
        end
      | None =>
        match index_of sni (c_ping c) (n_main c + n_rp c) with
        | Some i =>
          Some {| m_channel := ChPing;
                  m_proto := match max_proto parsed with Some p => p | None => H1 end;
                  m_host := i; m_creds := None |}
        | None =>
          match index_of sni (c_speed c) (n_main c + n_rp c + n_ping c) with
          | Some i =>
            Some {| m_channel := ChSpeed;
                    m_proto := match max_proto parsed with Some p => p | None => H1 end;
                    m_host := i; m_creds := None |}
          | None =>
            (* a configured alternative SNI comes before the <credentials>.<main host> pattern *)
            match alt_lookup sni (c_main c) 0 with
            | Some i => tun i None
            | None =>
              match match split_dot sni with
                    | Some (a, b) => match index_of b (main_names c) 0 with
                                     | Some i => Some (i, a) | None => None end
                    | None => None
                    end with
              | Some (i, a) => tun i (Some a)
              | None => None
              end
            end
          end
        end
      end
    end.

(* core.rs on_new_tls_connection: HTTP/3 is not spoken over TCP. [ignores_h3] = TCP_H3_OFFER_IGNORED: an offer of h3 does not
   count, the rest of the offer does (a client that offers nothing but h3 is refused); as found the whole offer was handed to
   select and a selection of HTTP/3 refused the connection although h2 or http/1.1 had been offered too. *)
Definition not_h3 (a : list N) : bool := negb (name_eqb a [104; 51]).
Definition select_tcp_with (ignores_h3 : bool) (c : config) (alpn : list (list N)) (sni : option (list N)) : option meta :=
  match sni with
  | None => None
  | Some s =>
    let offer := if ignores_h3 then filter not_h3 alpn else alpn in
    if ignores_h3 && is_nil offer && negb (is_nil alpn) then None
    else match select c offer s with
         | Some m => match m_proto m with H3 => None | _ => Some m end
         | None => None
         end
  end.

Definition select_tcp : config -> list (list N) -> option (list N) -> option meta := select_tcp_with TCP_H3_OFFER_IGNORED.

(* quic_multiplexer.rs: the QUIC listener offers select the single protocol h3 together with the SNI, once in the
   certificate callback and once when the handshake is finished. A selection is what the connection is served as; a
   refusal (or no SNI) leaves the bootstrap meta: some main host ([boot], HashMap order), tunnel channel, HTTP/3.
   [uses] = QUIC_SERVES_THE_SELECTION_OR_BOOTSTRAP. *)
Definition alpn_h3 : list N := [104; 51].
Definition bootstrap (boot : N) : meta := {| m_channel := ChTunnel; m_proto := H3; m_host := boot; m_creds := None |}.
Definition select_quic (uses : bool) (c : config) (boot : N) (sni : option (list N)) : meta :=
  match sni with
  | Some (x :: s) =>
    if uses then match select c [alpn_h3] (x :: s) with Some m => m | None => bootstrap boot end
    else bootstrap boot
  | _ => bootstrap boot
  end.

(* TlsHostsSettings::validate: non-empty main hosts, certificates loadable (the [loadable] oracle stands for
   utils::load_certs / load_private_key; a file without any certificate does not load), and every name designates at
   most one host entry. An entry answers to its host name and, a main host, to its alternative SNIs ([claims], in the
   order validate walks the groups: main, ping, speedtest, reverse proxy). validate_tls_hosts threads one set of the
   names taken so far through the four groups: a host whose name or alternative SNI is already in the set is refused,
   then all its names are added - a name repeated within one entry is not an error. *)
Fixpoint nodupb (l : list (list N)) : bool :=
  match l with
  | [] => true
  | x :: r => negb (existsb (name_eqb x) r) && nodupb r
  end.

Definition all_names (c : config) : list (list N) :=
  main_names c ++ c_ping c ++ c_speed c ++ c_rp c.

Definition host_names (h : main_host) : list (list N) := mh_name h :: mh_alts h.

Definition claims (c : config) : list (list (list N)) :=
  map host_names (c_main c) ++ map (fun n => [n]) (c_ping c ++ c_speed c ++ c_rp c).

Fixpoint names_free (taken : list (list N)) (entries : list (list (list N))) : bool :=
  match entries with
  | [] => true
  | e :: r => negb (existsb (fun x => existsb (name_eqb x) taken) e) && names_free (e ++ taken) r
  end.

Definition valid_hosts (c : config) : bool := negb (is_nil (c_main c)) && names_free [] (claims c).

(* Core::reload_tls_hosts_settings under the write lock: a failed validation or construction
   leaves the previous demultiplexer in place *)
Inductive dop := DSelect (alpn : list (list N)) (sni : list N) | DReload (c : config) (loadable : bool).

Definition dstep (cur : config) (o : dop) : config * option (option meta) :=
  match o with
  | DSelect alpn sni => (cur, Some (select cur alpn sni))
  | DReload c loadable => (if valid_hosts c && loadable then c else cur, None)
  end.
