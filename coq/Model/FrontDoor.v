(* What core.rs does with a new TCP connection, in the order it does it
   (listen_tcp -> on_new_tls_connection): read the ClientHello ahead of the handshake, refuse a hello
   without a server name, apply the connection rules to (peer address, client random), ask the
   demultiplexer, refuse HTTP/3 on TCP, and only then answer the handshake and serve the channel.
   A composition of Model/Rules.v and Model/TlsDemux.v; the order itself is tied to the code by the
   regenerated call-order facts (RulesFacts, DemuxFacts), passed in as booleans. *)
From Coq Require Import List NArith Bool.
From TT Require Import Model.ConnectPolicy Model.Rules Model.TlsDemux.
Import ListNotations.

Record hello := {
  h_sni : option (list N);          (* server name of the ClientHello *)
  h_alpn : list (list N);           (* protocols offered *)
  h_random : option (list N)        (* client random, when it could be read ahead of the handshake *)
}.

Inductive front_outcome :=
| FNoSni                            (* dropped: no server name *)
| FDenied                           (* dropped: the rules deny the connection *)
| FNoSelection                      (* dropped: the demultiplexer finds no host / acceptable protocol (HTTP/3 on TCP included) *)
| FServe (m : meta).                (* the handshake is answered with this host's certificate and the channel is served *)

(* [canon] = RULES_ON_CANONICAL_PEER; [deny_drops] = RULES_DENY_DROPS; [rules_first] = RULES_BEFORE_TLS_ACCEPT
   (the verdict is taken before the demultiplexer is asked and before the handshake is answered) *)
Definition front_tcp (canon deny_drops rules_first : bool)
           (rules : list rule) (c : config) (peer : addr) (h : hello) : front_outcome :=
  match h_sni h with
  | None => FNoSni
  | Some _ =>
    let denied := match connection_verdict canon rules peer (h_random h) with Deny => deny_drops | Allow => false end in
    if rules_first && denied then FDenied
    else match select_tcp c (h_alpn h) (h_sni h) with
         | None => if denied then FDenied else FNoSelection
         | Some m => if rules_first then FServe m else if denied then FDenied else FServe m
         end
  end.

(* what an observer of the connection can tell before the verdict: with the rules first, nothing that
   depends on the hosts configuration *)
Definition answered_handshake (o : front_outcome) : bool := match o with FServe _ => true | _ => false end.
