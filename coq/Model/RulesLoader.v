(* Model of settings.rs deserialize_rules: what the rules file, read as a TOML document, becomes before rules.rs sees it.
   A TOML value is a string or something else; the item under the key `rule` is a run of [[rule]] tables, an array value
   (whose elements are inline tables or other values), something else, or absent.
   [inline_ok] = RULES_INLINE_TABLES_READ: `rule = [ { .. }, { .. } ]` is read like the [[rule]] spelling of the same value;
   as found it read as "no rules", i.e. allow everything. *)
From Coq Require Import List NArith Bool.
From TT Require Import Lib.BytesL Model.ConnectPolicy Model.Rules.
Import ListNotations.
Open Scope N_scope.

Inductive titem := TStr (s : list N) | TOther.
Record ttable := { t_cidr : option titem; t_prefix : option titem; t_action : option titem }.
Inductive rule_item :=
| RAbsent
| RTables (l : list ttable)                  (* [[rule]] ... [[rule]] *)
| RArray (l : list (option ttable))          (* rule = [ v, v, ... ]: an inline table, or a value that is not a table *)
| ROther.

(* what the loader hands to rules.rs: the two condition texts and the action *)
Record loaded := { l_cidr : option (list N); l_prefix : option (list N); l_action : action }.

Definition QUESTION : list N := [63].                         (* "?" : parses neither as a network nor as hex *)
Definition ALLOW_S : list N := [97; 108; 108; 111; 119].
Definition DENY_S : list N := [100; 101; 110; 121].

(* a condition that is present but not a string is malformed: it must not read as "no condition" *)
Definition condition (i : option titem) : option (list N) :=
  match i with None => None | Some (TStr s) => Some s | Some TOther => Some QUESTION end.

(* a rule whose action is missing, not a string, or neither "allow" nor "deny" is dropped (documented in the loader) *)
Definition load_table (t : ttable) : option loaded :=
  match t_action t with
  | Some (TStr a) =>
    if list_eqb N.eqb a ALLOW_S then Some {| l_cidr := condition (t_cidr t); l_prefix := condition (t_prefix t); l_action := Allow |}
    else if list_eqb N.eqb a DENY_S then Some {| l_cidr := condition (t_cidr t); l_prefix := condition (t_prefix t); l_action := Deny |}
    else None
  | _ => None
  end.

Definition somes {A} (l : list (option A)) : list A := flat_map (fun o => match o with Some x => [x] | None => [] end) l.

Definition tables (inline_ok : bool) (r : rule_item) : list ttable :=
  match r with
  | RTables l => l
  | RArray l => if inline_ok then somes l else []
  | _ => []
  end.

Definition load (inline_ok : bool) (r : rule_item) : list loaded := somes (map load_table (tables inline_ok r)).

(* rules.rs parses the texts when it evaluates: [pc] = IpNet::from_str, [pp] = the prefix[/mask] hex forms *)
Definition to_rule (pc : list N -> cidr_field) (pp : list N -> pat_field) (x : loaded) : rule :=
  {| r_cidr := match l_cidr x with None => CNone | Some s => pc s end;
     r_pat := match l_prefix x with None => PNone | Some s => pp s end;
     r_action := l_action x |}.
